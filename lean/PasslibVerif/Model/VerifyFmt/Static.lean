import PasslibVerif.Model.Verify
import PasslibVerif.Model.VerifyCrypt
import PasslibVerif.Model.Formats.Static
import PasslibVerif.Model.TotpSerial
import PasslibVerif.Spec.Formats.Digests
import PasslibVerif.Spec.Formats.DesBased
/-
C01 for the `Static` family: every hasher of Model/Formats/Static.lean as passlib assembles it —
the C07 model of `from_string` / `to_string` + the C02 specification of the format's checksum (Spec/Formats/Digests.lean,
DesBased.lean), with the secret handling each class has in its `_calc_checksum`.

Sources: passlib/utils/handlers.py (GenericHandler.hash / verify, StaticHandler, HasUserContext, PrefixWrapper.hash / verify),
passlib/handlers/{digests,windows,mysql,oracle,postgres,mssql,ldap_digests,cisco}.py.

What `digest b p` receives: `b` = the secret as bytes (text secrets already UTF-8 encoded by `Secret.toBytes`).
  * classes that start with `if isinstance(secret, str): secret = secret.encode("utf-8")` hash `b` as it is;
  * classes that work on text (`to_unicode(secret, "utf-8")`, `secret.decode("utf-8")`: nthash, msdcc, msdcc2, oracle10, mssql2000,
    mssql2005) raise UnicodeDecodeError (a ValueError) for bytes that are not UTF-8: `utf8Ok`;
  * none of these classes refuses NUL; lmhash (14, silently unless `truncate_error=True`) and cisco_pix / cisco_asa (16 / 32,
    PasswordSizeError from `hash`, a spoiled digest in `verify`) have a size policy.

Context keyword `user` is a parameter of the hasher: `none` = not given (TypeError where the class needs it), `some u` = the UTF-8
bytes of the user name.

Case mapping.  `str.lower()` of the msdcc / msdcc2 user name, `str.upper()` of the oracle10 user+password and of the mssql2000
password are the full Unicode maps of the interpreter (`Py.pyLower` / `Py.pyUpper`, reflected tables) applied to the decoded code
points; Lemmas/C01StaticAscii.lean proves that for ASCII input they are the Spec checksum (whose case mapping covers ASCII letters).
lmhash: text secrets are encoded with the OEM code page (cp437 by default) after `.upper()`, bytes are taken as OEM bytes; the
model takes the bytes `b` as OEM bytes — exact for bytes secrets and for ASCII text; non-ASCII TEXT secrets are outside the model
(no code page table) and outside the theorems' claim.
-/
namespace Model.VerifyFmt.Static
open Py Model.Handler Model.Formats Model.Verify

/-- a hasher from a C07 format model and a checksum function -/
def ofFormat (f : Format) (digest : Bytes → Parsed → Res Str) : Hasher where
  parse := fun s => toRes (f.parse s)
  render := f.render
  digest := digest

/-- the record `hash()` builds for a handler without settings -/
def noSettings (ident : Str := []) : Parsed := { ident := ident }

/-- `bytes.decode("utf-8")` succeeds -/
def utf8Ok (b : Bytes) : Bool := (Model.TotpSerial.utf8Decode b).isSome

/-- UTF-16 code units of text, as little- / big-endian bytes (`str.encode("utf-16-le")` / `"utf-16-be"`) -/
def utf16leOf (cps : List Nat) : Bytes := (cps.flatMap Spec.Formats.utf16Units).flatMap fun w => [w % 256, w / 256]
def utf16beOf (cps : List Nat) : Bytes := (cps.flatMap Spec.Formats.utf16Units).flatMap fun w => [w / 256, w % 256]

/-- `to_unicode(x, "utf-8")` of bytes -/
def decodeUtf8 (b : Bytes) : Res (List Nat) :=
  match Model.TotpSerial.utf8Decode b with
  | some cps => .ok cps
  | none => .error .valueError

/-- `to_unicode(self.user, "utf-8", param="user")`: TypeError for None, UnicodeDecodeError for bytes that are not UTF-8 -/
def userText (user : Option Bytes) : Res (List Nat) :=
  match user with
  | none => .error .typeError
  | some u => decodeUtf8 u

/-! ### hex_md4 … hex_sha512 (digests.py `HexDigestHash`) -/
def hexHasher (f : Format) (H : Bytes → Bytes) : Hasher := ofFormat f fun b _ => .ok (Spec.Formats.hexDigest H b)

def hex_md4Hasher : Hasher := hexHasher hex_md4 Spec.MD4.md4
def hex_md5Hasher : Hasher := hexHasher hex_md5 Spec.MD5.md5
def hex_sha1Hasher : Hasher := hexHasher hex_sha1 Spec.SHA1.sha1
def hex_sha256Hasher : Hasher := hexHasher hex_sha256 Spec.SHA256.sha256
def hex_sha512Hasher : Hasher := hexHasher hex_sha512 Spec.SHA512.sha512

/-! ### windows.py -/
/-- nthash: `md4(to_unicode(secret, "utf-8").encode("utf-16-le"))` -/
def nthashDigest (b : Bytes) : Res Str := if utf8Ok b then .ok (Spec.Formats.nthash b) else .error .valueError
def nthashHasher : Hasher := ofFormat nthash fun b _ => nthashDigest b

/-- lmhash (`truncate_size = 14`; `using(truncate_error=…)`): bytes are OEM bytes -/
def lmhashHasher (truncateError : Bool := false) : Hasher :=
  { ofFormat lmhash (fun b _ => .ok (Spec.Formats.lmhash b)) with truncateSize := some 14, truncateError := truncateError }

/-- `to_unicode(user).lower().encode("utf-16-le")` -/
def dccUserOf (user : Option Bytes) : Res Bytes := (userText user).map fun cps => utf16leOf (pyLower cps)

/-- msdcc: `md4(md4(secret_utf16le) + user_lower_utf16le)` -/
def msdccRawOf (b : Bytes) (user : Option Bytes) : Res (Bytes × Bytes) :=
  if utf8Ok b then (dccUserOf user).map fun u => (Spec.MD4.md4 (Spec.Formats.ntHashRaw b ++ u), u) else .error .valueError
def msdccDigest (user : Option Bytes) (b : Bytes) : Res Str :=
  (msdccRawOf b user).map fun r => Spec.Formats.hexLower r.1
def msdccHasher (user : Option Bytes) : Hasher := ofFormat msdcc fun b _ => msdccDigest user b

/-- msdcc2: `pbkdf2_hmac("sha1", msdcc_raw, user_lower_utf16le, 10240, 16)` -/
def msdcc2Digest (user : Option Bytes) (b : Bytes) : Res Str :=
  (msdccRawOf b user).map fun r => Spec.Formats.hexLower (Spec.Pbkdf.pbkdf2 Spec.SHA1.sha1 64 20 r.1 r.2 10240 16)
def msdcc2Hasher (user : Option Bytes) : Hasher := ofFormat msdcc2 fun b _ => msdcc2Digest user b

/-! ### mysql.py, postgres.py, oracle.py -/
def mysql323Hasher : Hasher := ofFormat mysql323 fun b _ => .ok (Spec.Formats.mysql323 b)
def mysql41Hasher : Hasher := ofFormat mysql41 fun b _ => .ok (Spec.Formats.mysql41 b)

/-- postgres_md5: `md5(secret + to_bytes(self.user, "utf-8"))` (TypeError without a user; user bytes are taken as they are) -/
def postgresDigest (user : Option Bytes) (b : Bytes) : Res Str :=
  match user with
  | none => .error .typeError
  | some u => .ok (Spec.Formats.postgresMd5 b u)
def postgres_md5Hasher (user : Option Bytes) : Hasher := ofFormat postgres_md5 fun b _ => postgresDigest user b

/-- oracle10 on text: `(user + secret).upper().encode("utf-16-be")`, zero padded, DES-CBC twice (Spec.Formats.oracle10 with the
    interpreter's `upper()`) -/
def oracle10OfText (cps : List Nat) : Str :=
  let raw := utf16beOf (pyUpper cps)
  let padded := raw ++ List.replicate ((8 - raw.length % 8) % 8) 0
  let blocks := Spec.Formats.chunksOf 8 padded
  let k2 := Spec.Formats.desCbcLast 0x0123456789ABCDEF blocks
  Spec.Formats.hexUpper (Spec.Formats.beBytes 8 (Spec.Formats.desCbcLast k2 blocks))

def oracle10Digest (user : Option Bytes) (b : Bytes) : Res Str :=
  match decodeUtf8 b with
  | .error e => .error e
  | .ok s => (userText user).map fun u => oracle10OfText (u ++ s)
def oracle10Hasher (user : Option Bytes) : Hasher := ofFormat oracle10 fun b _ => oracle10Digest user b

/-- oracle11: `sha1(secret + unhexlify(self.salt)).hexdigest().upper()`; the salt is 20 upper-case hex characters -/
def oracle11Digest (b : Bytes) (p : Parsed) : Res Str :=
  match unhexlify (p.salt.getD []) with
  | some raw => .ok (Spec.Formats.oracle11 b raw)
  | none => .error .valueError
def oracle11Hasher : Hasher := ofFormat oracle11 oracle11Digest
def saltSettings (ident : Str) (salt : Str) : Parsed := { ident := ident, salt := some salt }

/-! ### cisco.py: cisco_pix / cisco_asa -/
def ciscoLimit (asa : Bool) : Nat := if asa then 32 else 16

/-- `_calc_checksum`: the Spec input block; for a secret beyond `truncate_size` (`verify` only — `hash` raises) the block is
    followed by `secret + b"\xff" * 32` so that the digest cannot match -/
def ciscoDigest (asa : Bool) (user : Option Bytes) (b : Bytes) : Str :=
  let u := Spec.Formats.ciscoUser4 (user.getD [])
  let s := if asa ∧ b.length ≥ 28 then b else b ++ u
  let n := if asa ∧ s.length > 16 then 32 else 16
  let block := (s ++ List.replicate n 0).take n
  Spec.Formats.ciscoEncode (if b.length > ciscoLimit asa then block ++ b ++ List.replicate 32 255 else block)

def ciscoHasher (asa : Bool) (user : Option Bytes) : Hasher :=
  ofFormat (if asa then cisco_asa else cisco_pix) fun b _ => .ok (ciscoDigest asa user b)

/-- `hash`: PasswordSizeError (not PasswordTruncateError) beyond `truncate_size`, raised inside `_calc_checksum` after the secret
    was validated and encoded -/
def ciscoHashSecret (asa : Bool) (user : Option Bytes) (s : Secret) : Res Str :=
  match hashSecret (ciscoHasher asa user) s (noSettings) with
  | .error e => .error e
  | .ok hs => match s.toBytes with
    | .error e => .error e
    | .ok b => if b.length > ciscoLimit asa then .error .sizeError else .ok hs

/-! ### ldap_digests.py -/
def ldapB64Hasher (f : Format) (H : Bytes → Bytes) : Hasher := ofFormat f fun b _ => .ok (Spec.Formats.ldapDigest H b)
def ldap_md5Hasher : Hasher := ldapB64Hasher ldap_md5 Spec.MD5.md5
def ldap_sha1Hasher : Hasher := ldapB64Hasher ldap_sha1 Spec.SHA1.sha1

/-- `_SaltedBase64DigestHelper._calc_checksum`: the RAW digest of secret + salt (the rendering is `ident + b64(checksum + salt)`) -/
def ldapSaltedHasher (f : Format) (H : Bytes → Bytes) : Hasher := ofFormat f fun b p => .ok (H (b ++ p.salt.getD []))
def ldap_salted_md5Hasher : Hasher := ldapSaltedHasher ldap_salted_md5 Spec.MD5.md5
def ldap_salted_sha1Hasher : Hasher := ldapSaltedHasher ldap_salted_sha1 Spec.SHA1.sha1
def ldap_salted_sha256Hasher : Hasher := ldapSaltedHasher ldap_salted_sha256 Spec.SHA256.sha256
def ldap_salted_sha512Hasher : Hasher := ldapSaltedHasher ldap_salted_sha512 Spec.SHA512.sha512

/-! ### mssql.py -/
/-- `_raw_mssql(text, salt)` -/
def rawMssql (cps : List Nat) (salt : Bytes) : Bytes := Spec.SHA1.sha1 (utf16leOf cps ++ salt)

/-- mssql2005: `_raw_mssql(secret, salt)` — a raw 20-byte checksum -/
def mssql2005Digest (b : Bytes) (p : Parsed) : Res Str :=
  (decodeUtf8 b).map fun s => rawMssql s (p.salt.getD [])
def mssql2005Hasher : Hasher := ofFormat mssql2005 mssql2005Digest

/-- mssql2000: `_raw_mssql(secret, salt) + _raw_mssql(secret.upper(), salt)` -/
def mssql2000Digest (b : Bytes) (p : Parsed) : Res Str :=
  (decodeUtf8 b).map fun s => rawMssql s (p.salt.getD []) ++ rawMssql (pyUpper s) (p.salt.getD [])
def mssql2000Hasher : Hasher := ofFormat mssql2000 mssql2000Digest

/-- mssql2000 overrides `verify`: only the second (upper-cased) half is compared -/
def mssql2000Verify (s : Secret) (hs : Str) : Res Bool :=
  match validateSecret s with
  | .error e => .error e
  | .ok _ => match mssql2000Hasher.parse hs with
    | .error e => .error e
    | .ok p => match p.checksum with
      | none => .error .valueError
      | some chk => match s.toBytes with
        | .error e => .error e
        | .ok b => match decodeUtf8 b with
          | .error e => .error e
          | .ok t => .ok (rawMssql (pyUpper t) (p.salt.getD []) == chk.drop 20)

/-! ### PrefixWrapper (orig_prefix = ""): bsd_nthash, ldap_hex_md5, ldap_hex_sha1, ldap_md5_crypt, ldap_sha256_crypt, ldap_sha512_crypt -/
/-- `PrefixWrapper.hash`: `_wrap_hash(wrapped.hash(secret))` -/
def wrapHashSecret (pfx : Str) (h : Hasher) (s : Secret) (p : Parsed) : Res Str :=
  match hashSecret h s p with
  | .ok hs => .ok (pfx ++ hs)
  | .error e => .error e

/-- `PrefixWrapper.verify`: `_unwrap_hash` FIRST (InvalidHashError for a string without the prefix, even for an oversized secret),
    then `wrapped.verify` -/
def wrapVerify (pfx : Str) (h : Hasher) (s : Secret) (hs : Str) : Res Bool :=
  match stripPrefix pfx hs with
  | none => .error .valueError
  | some r => verify h s r

def BSD_NT : Str := ofString "$3$$"
def LDAP_MD5 : Str := ofString "{MD5}"
def LDAP_SHA : Str := ofString "{SHA}"

/-! ### htdigest (a MinimalHandler with its own `hash` / `verify`; encoding = utf-8) -/
/-- `htdigest.hash(secret, user, realm)`: user / realm given as their encoded bytes -/
def htdigestHash (user realm : Bytes) (s : Secret) : Res Str :=
  match validateSecret s with
  | .error e => .error e
  | .ok _ => match s.toBytes with
    | .error e => .error e
    | .ok b => .ok (Spec.Formats.htdigest b user realm)

/-- `htdigest.verify`: `_norm_hash(hash)` first, then `hash(secret, …)` and a comparison -/
def htdigestVerify (user realm : Bytes) (s : Secret) (hs : Str) : Res Bool :=
  if htdigestOk hs then
    match htdigestHash user realm s with
    | .error e => .error e
    | .ok c => .ok (c == hs)
  else .error .valueError

end Model.VerifyFmt.Static
