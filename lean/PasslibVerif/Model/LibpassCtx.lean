import PasslibVerif.Py.Basic
/- libpass.context.CryptContext: hash with the first scheme, verify with any, deprecated = all but the first -/
namespace Model.LibpassCtx
open Py

structure Hasher where
  id : Nat                                  -- object identity (list membership uses `==`, i.e. identity here)
  identify : List Nat → Bool
  verify : List Nat → List Nat → Bool       -- verify(secret, hash)

def mk (schemes : List Hasher) : Res (List Hasher) := if schemes.isEmpty then .error .valueError else .ok schemes

def defaultScheme (schemes : List Hasher) : Option Hasher := schemes.head?
def deprecatedSchemes (schemes : List Hasher) : List Hasher := schemes.tail

def verifyCtx (schemes : List Hasher) (secret hash : List Nat) : Bool := schemes.any (·.verify secret hash)

def needsUpdate (schemes : List Hasher) (hash : List Nat) : Bool :=
  (schemes.filter (fun s => !(deprecatedSchemes schemes).any (·.id == s.id))).all (fun s => !s.identify hash)

end Model.LibpassCtx
