import PasslibVerif.Model.Rng
/-
C06 — the password / passphrase generators of `passlib/pwd.py`, statement by statement.

* the float `entropy_per_symbol = log2(symbol_count)` has ONE use in the code, the length computation
  `min_length = int(ceil(entropy / self.entropy_per_symbol))`; it is the explicit parameter
  `minLen : (symbolCount entropyBits : Nat) → Nat` (for `symbolCount ≥ 2`; `log2(0)` is a ValueError and
  `entropy / log2(1)` a ZeroDivisionError — both modelled).  Stated assumption `MinLenOK minLen`:
  `N ^ minLen N e ≥ 2 ^ e`; the suite `rng minlen` of tools/corr/C06.py compares the float value with the exact
  integer one (`exactMinLen` below, proved to satisfy `MinLenOK`) on every run.
* the random source is a stream of outcomes `draw : Nat → Nat` read at position `pos`: the k-th question of the
  generator (`rng.randrange(0, N**L)` inside `getrandstr`, `rng.choice(words)` = `words[_randbelow(len(words))]`)
  is answered by `draw (pos + k)`.  `rng.choice` of an empty sequence raises IndexError (random.Random.choice).
* errors are `PRes` = `Except PErr`: the Python exception classes that the constructors can raise
  (ZeroDivisionError is not one of `Py.ErrKind`, hence a local enumeration).
* strings are lists of code points; `chars` given as bytes are decoded by `to_unicode` before anything looks at them.
-/
namespace Model.PwdGen
open Py Model.Rng

inductive PErr
  | valueError | typeError | keyError | zeroDivisionError | indexError
  deriving DecidableEq, Repr, Inhabited

def PErr.name : PErr → String
  | .valueError => "ValueError" | .typeError => "TypeError" | .keyError => "KeyError"
  | .zeroDivisionError => "ZeroDivisionError" | .indexError => "IndexError"

abbrev PRes (α : Type) := Except PErr α

/-- errors of the shared helpers (`getrandstr` only raises ValueError) -/
def ofRes {α} : Res α → PRes α
  | .ok a => .ok a
  | .error .typeError => .error .typeError
  | .error .keyError => .error .keyError
  | .error .indexError => .error .indexError
  | .error _ => .error .valueError

/-! ### `entropy_aliases` -/
inductive Alias | unsafe_ | weak | fair | strong | secure
  deriving DecidableEq, Repr

def Alias.bits : Alias → Nat
  | .unsafe_ => 12 | .weak => 24 | .fair => 36 | .strong => 48 | .secure => 60

def Alias.ofName : String → Option Alias
  | "unsafe" => some .unsafe_ | "weak" => some .weak | "fair" => some .fair
  | "strong" => some .strong | "secure" => some .secure | _ => none

/-- the `entropy` argument: None, an int, a preset name, any other string -/
inductive EntropyArg | none | int (i : Int) | alias (a : Alias) | otherStr
  deriving DecidableEq, Repr

/-! ### `_ensure_unique` -/
/-- `set(source)` as a duplicate-free list -/
def toSet {α} [DecidableEq α] : List α → List α
  | [] => []
  | x :: xs => if x ∈ toSet xs then toSet xs else x :: toSet xs

/-- `_ensure_unique(source)`: `len(set(source)) == len(source)` or ValueError (the cache only ever holds sources
    that passed this very test, so it does not change the answer) -/
def ensureUnique {α} [DecidableEq α] (source : List α) : PRes Unit :=
  if (toSet source).length = source.length then .ok () else .error .valueError

/-! ### `SequenceGenerator.__init__` -/
structure SeqOpts where
  entropy : EntropyArg := .none
  length : Option Int := none
  /-- keywords left over for `object.__init__` -/
  extraKwds : Bool := false
  deriving DecidableEq, Repr

structure SeqState where
  length : Nat
  /-- `self.requested_entropy` after the constructor: None when only `length` was given -/
  requestedEntropy : Option Nat
  deriving DecidableEq, Repr

/-- class attribute `requested_entropy = "strong"` -/
def defaultEntropy : Alias := .strong

/-- `int(ceil(entropy / self.entropy_per_symbol))` with `entropy_per_symbol = log2(symbol_count)` -/
def minLength (minLen : Nat → Nat → Nat) (symbolCount entropy : Nat) : PRes Nat :=
  if symbolCount = 0 then .error .valueError            -- log2(0): math domain error
  else if symbolCount = 1 then .error .zeroDivisionError -- entropy / 0.0
  else .ok (minLen symbolCount entropy)

/-- `entropy_aliases.get(entropy, entropy)` followed by `entropy <= 0` -/
def resolveEntropy : EntropyArg → PRes Nat
  | .none => .ok defaultEntropy.bits
  | .alias a => .ok a.bits
  | .otherStr => .error .typeError          -- str <= int
  | .int i => if i ≤ 0 then .error .valueError else .ok i.toNat

def seqInit (minLen : Nat → Nat → Nat) (symbolCount : Nat) (o : SeqOpts) : PRes SeqState := do
  let (req, length) ←
    (if o.entropy ≠ .none ∨ o.length = none then do
      let entropy ← resolveEntropy o.entropy
      let minLength ← minLength minLen symbolCount entropy
      let length : Int := match o.length with
        | none => minLength
        | some l => if l < minLength then minLength else l
      pure (some entropy, length)
    else pure (none, o.length.getD 0) : PRes (Option Nat × Int))
  if length < 1 then .error .valueError
  else if o.extraKwds then .error .typeError
  else .ok { length := length.toNat, requestedEntropy := req }

/-! ### the random source and `SequenceGenerator.__call__` -/
structure Src where
  draw : Nat → Nat
  pos : Nat

def Src.take (s : Src) : Nat × Src := (s.draw s.pos, { s with pos := s.pos + 1 })

/-- `[next(self) for _ in range(n)]` -/
def batch {α} (next : Src → PRes (α × Src)) : Nat → Src → PRes (List α × Src)
  | 0, s => .ok ([], s)
  | n+1, s => do
    let (a, s) ← next s
    let (as, s) ← batch next n s
    pure (a :: as, s)

/-- the `returns` argument: None, an int, the builtin `iter`, anything else -/
inductive Returns | none | int (i : Int) | iter | other
  deriving DecidableEq, Repr

inductive CallResult (α : Type) | one (a : α) | many (l : List α) | self
  deriving DecidableEq, Repr

/-- `__call__(returns)`; `range(i)` of a negative int is empty; `iter` hands back the generator itself (an iterator whose
    `__next__` is `next`) -/
def call {α} (next : Src → PRes (α × Src)) (returns : Returns) (s : Src) : PRes (CallResult α × Src) :=
  match returns with
  | .none => do let (a, s) ← next s; pure (.one a, s)
  | .int i => do let (l, s) ← batch next i.toNat s; pure (.many l, s)
  | .iter => .ok (.self, s)
  | .other => .error .typeError

/-! ### `default_charsets`, `WordGenerator` -/
inductive Charset | ascii72 | ascii62 | ascii50 | hex
  deriving DecidableEq, Repr

def Charset.chars : Charset → List Nat
  | .ascii72 => [48, 49, 50, 51, 52, 53, 54, 55, 56, 57, 97, 98, 99, 100, 101, 102, 103, 104, 105, 106, 107, 108, 109, 110, 111, 112, 113, 114, 115, 116, 117, 118, 119, 120, 121, 122, 65, 66, 67, 68, 69, 70, 71, 72, 73, 74, 75, 76, 77, 78, 79, 80, 81, 82, 83, 84, 85, 86, 87, 88, 89, 90, 33, 64, 35, 36, 37, 94, 38, 42, 63, 47]
  | .ascii62 => [48, 49, 50, 51, 52, 53, 54, 55, 56, 57, 97, 98, 99, 100, 101, 102, 103, 104, 105, 106, 107, 108, 109, 110, 111, 112, 113, 114, 115, 116, 117, 118, 119, 120, 121, 122, 65, 66, 67, 68, 69, 70, 71, 72, 73, 74, 75, 76, 77, 78, 79, 80, 81, 82, 83, 84, 85, 86, 87, 88, 89, 90]
  | .ascii50 => [50, 51, 52, 54, 55, 57, 97, 98, 99, 100, 101, 102, 103, 104, 106, 107, 109, 110, 112, 113, 114, 115, 116, 117, 118, 119, 120, 121, 122, 65, 67, 68, 69, 70, 71, 72, 74, 75, 77, 78, 80, 81, 82, 84, 85, 86, 87, 88, 89, 90]
  | .hex => [48, 49, 50, 51, 52, 53, 54, 55, 56, 57, 97, 98, 99, 100, 101, 102]

def Charset.name : Charset → String
  | .ascii72 => "ascii_72" | .ascii62 => "ascii_62" | .ascii50 => "ascii_50" | .hex => "hex"

def Charset.ofName : String → Option Charset
  | "ascii_72" => some .ascii72 | "ascii_62" => some .ascii62 | "ascii_50" => some .ascii50 | "hex" => some .hex
  | _ => none

/-- the `charset` argument: a key of `default_charsets`, another non-empty string, the empty string (falsy) -/
inductive CharsetArg | named (c : Charset) | unknown | empty
  deriving DecidableEq, Repr

structure WordOpts where
  chars : Option (List Nat) := none
  charset : Option CharsetArg := none
  seq : SeqOpts := {}
  deriving DecidableEq, Repr

structure WordGen where
  chars : List Nat
  /-- attribute `charset` (None for custom chars) -/
  charset : Option CharsetArg
  length : Nat
  requestedEntropy : Option Nat
  deriving DecidableEq, Repr

def WordGen.symbolCount (g : WordGen) : Nat := g.chars.length

def charsTruthy : Option (List Nat) → Bool
  | some (_ :: _) => true
  | _ => false

def charsetTruthy : Option CharsetArg → Bool
  | none | some .empty => false
  | _ => true

/-- class attribute `charset = "ascii_62"` -/
def defaultCharset : Charset := .ascii62

def wordInit (minLen : Nat → Nat → Nat) (o : WordOpts) : PRes WordGen := do
  let (chars, charset) ←
    (if charsTruthy o.chars then
      if charsetTruthy o.charset then .error .typeError
      else pure (o.chars.getD [], o.charset)
    else
      let charset : Option CharsetArg := if charsetTruthy o.charset then o.charset else some (.named defaultCharset)
      match charset with
      | some (.named c) => pure (c.chars, charset)
      | _ => .error .keyError : PRes (List Nat × Option CharsetArg))
  ensureUnique chars
  let st ← seqInit minLen chars.length o.seq
  pure { chars, charset, length := st.length, requestedEntropy := st.requestedEntropy }

/-- `__next__` given the answer of the one question `getrandstr` asks -/
def wordNext (g : WordGen) (value : Nat) : PRes (List Nat) := ofRes (getrandstr g.chars g.length value)

/-- what `__next__` asks the source: `randrange(0, N**length)`, nothing for a one-letter alphabet -/
def wordDemand (g : WordGen) : Option Nat :=
  if g.chars.length ≤ 1 then none else some (Gen.Rng.grsRange g.chars.length g.length)

def wordNextS (g : WordGen) (s : Src) : PRes (List Nat × Src) :=
  if g.chars.length ≤ 1 then do let w ← wordNext g 0; pure (w, s)
  else do let (v, s') := s.take; let w ← wordNext g v; pure (w, s')

/-- `genword(entropy, length, returns, **kwds)` -/
def genword (minLen : Nat → Nat → Nat) (o : WordOpts) (returns : Returns) (s : Src) :
    PRes (CallResult (List Nat) × Src) := do
  let g ← wordInit minLen o
  call (wordNextS g) returns s

/-! ### `default_wordsets`, `PhraseGenerator` -/
abbrev Word := List Nat

inductive Wordset | effLong | effShort | effPrefixed | bip39
  deriving DecidableEq, Repr

def Wordset.name : Wordset → String
  | .effLong => "eff_long" | .effShort => "eff_short" | .effPrefixed => "eff_prefixed" | .bip39 => "bip39"

def Wordset.ofName : String → Option Wordset
  | "eff_long" => some .effLong | "eff_short" => some .effShort | "eff_prefixed" => some .effPrefixed
  | "bip39" => some .bip39 | _ => none

/-- the `wordset` argument (tested with `is None`, so the empty string is just an unknown key) -/
inductive WordsetArg | named (w : Wordset) | unknown
  deriving DecidableEq, Repr

structure PhraseOpts where
  wordset : Option WordsetArg := none
  words : Option (List Word) := none
  sep : Option Word := none
  seq : SeqOpts := {}
  deriving DecidableEq, Repr

structure PhraseGen where
  words : List Word
  wordset : Option WordsetArg
  sep : Word
  length : Nat
  requestedEntropy : Option Nat
  deriving DecidableEq, Repr

/-- class attributes `wordset = "eff_long"`, `sep = " "` -/
def defaultWordset : Wordset := .effLong
def defaultSep : Word := [32]

/-- `default_wordsets[name]` is the parameter `table` (the word files are data, loaded lazily by `WordsetDict`) -/
def phraseInit (minLen : Nat → Nat → Nat) (table : Wordset → List Word) (o : PhraseOpts) : PRes PhraseGen := do
  let (words, wordset) ←
    (match o.words with
    | some ws => if o.wordset ≠ none then .error .typeError else pure (ws, none)
    | none =>
      let wordset : Option WordsetArg := match o.wordset with | none => some (.named defaultWordset) | some w => some w
      match wordset with
      | some (.named w) => pure (table w, wordset)
      | _ => .error .keyError : PRes (List Word × Option WordsetArg))
  ensureUnique words
  let sep := o.sep.getD defaultSep
  let st ← seqInit minLen words.length o.seq
  pure { words, wordset, sep, length := st.length, requestedEntropy := st.requestedEntropy }

/-- `sep.join(words)` -/
def joinSep (sep : Word) : List Word → Word
  | [] => []
  | [w] => w
  | w :: ws => w ++ sep ++ joinSep sep ws

/-- `rng.choice(seq)`: IndexError for an empty sequence, else `seq[i]` for the drawn index -/
def choice (seq : List Word) (i : Nat) : PRes Word :=
  match seq[i]? with
  | some w => .ok w
  | none => .error .indexError

/-- the `length` words chosen for the given indices -/
def chooseAll (seq : List Word) : List Nat → PRes (List Word)
  | [] => .ok []
  | i :: is => do let w ← choice seq i; let ws ← chooseAll seq is; pure (w :: ws)

/-- `__next__` given the answers of its `length` questions -/
def phraseNext (g : PhraseGen) (idxs : List Nat) : PRes Word := do
  let ws ← chooseAll g.words idxs
  pure (joinSep g.sep ws)

/-- the next `n` outcomes of the stream -/
def Src.takeN (s : Src) (n : Nat) : List Nat × Src :=
  ((List.range n).map (fun k => s.draw (s.pos + k)), { s with pos := s.pos + n })

def phraseNextS (g : PhraseGen) (s : Src) : PRes (Word × Src) :=
  if g.words.length = 0 ∧ 0 < g.length then .error .indexError   -- first `choice` of an empty sequence, source not consulted
  else do let (idxs, s') := s.takeN g.length; let p ← phraseNext g idxs; pure (p, s')

/-- what `__next__` asks the source: `length` times an index below `len(words)` -/
def phraseDemand (g : PhraseGen) : List Nat :=
  if g.words.length = 0 then [] else List.replicate g.length g.words.length

def genphrase (minLen : Nat → Nat → Nat) (table : Wordset → List Word) (o : PhraseOpts) (returns : Returns) (s : Src) :
    PRes (CallResult Word × Src) := do
  let g ← phraseInit minLen table o
  call (phraseNextS g) returns s

/-! ### the exact integer length (an instance of the parameter `minLen`) -/
/-- least L ≤ e with N^L ≥ 2^e (for N ≥ 2 such an L exists: L = e) -/
def exactMinLen (N e : Nat) : Nat :=
  ((List.range (e + 1)).find? (fun L => decide (2 ^ e ≤ N ^ L))).getD e

end Model.PwdGen
