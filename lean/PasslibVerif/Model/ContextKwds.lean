import PasslibVerif.Py.Basic
/-
Model of the KEYWORD PLUMBING of passlib.context.CryptContext (C04 / C10): which record a public method chooses
(`_get_record`, `_identify_record`, `_get_or_identify_record`, the `scheme=` / `category=` keywords), which context keywords
reach which hasher call (`_strip_unused_context_kwds`, installed or removed per instance by `load()`), `hash is None` →
`dummy_verify()` (memoized `_dummy_hash`), and `verify_and_update` re-hashing with the default scheme.

A hasher is a name, the keywords it declares (`context_kwds`) and the declared keywords it cannot work without; calling it with a
keyword it does not declare is Python's own TypeError.  Keyword VALUES are not modelled (only which keys arrive, in dict order).
Facts about one hash string enter as atoms per scheme (`SchemeFacts`).
-/
namespace Model.ContextKwds
open Py

abbrev Cat := Option String
abbrev Kw := String

structure Hasher where
  name : String
  contextKwds : List Kw
  required : List Kw := []            -- declared keywords without which the hasher's call is a TypeError (e.g. `user` of msdcc)
  deriving DecidableEq, Repr

inductive KwProblem | fine | undeclared | missing
  deriving DecidableEq, Repr

def Hasher.problem (h : Hasher) (kws : List Kw) : KwProblem :=
  if kws.all (fun k => h.contextKwds.contains k) then
    if h.required.all (fun k => kws.contains k) then .fine else .missing
  else .undeclared

/-- the hasher's `hash` called with keyword set `kws` (Python argument binding / `object.__init__` TypeError) -/
def Hasher.accepts (h : Hasher) (kws : List Kw) : Res Unit :=
  match h.problem kws with
  | .fine => .ok ()
  | _ => .error .typeError

/-- a record = `handler.using(**settings of (scheme, cat))`; `cat` says whose options built it -/
structure Rec where
  hasher : Hasher
  cat : Cat
  deprecated : Bool
  deriving DecidableEq, Repr

structure Cfg where
  hashers : List Hasher                -- `config.handlers`, in scheme order
  cats : List String                   -- `config.categories`
  own : List (String × String)         -- (scheme, category) pairs for which `_init_records` made a record (has_cat_options)
  dep : List (String × Cat)            -- records created with deprecated=True
  defaults : List (Cat × String)       -- `_default_schemes`
  deriving Repr

def Cfg.empty : Cfg := ⟨[], [], [], [], []⟩

/-- a Python argument value as far as the code looks at it -/
inductive Arg
  | none
  | str (s : String)
  | other                              -- a truthy object that is not a str (int, bytes, list, …)
  deriving DecidableEq, Repr

structure SchemeFacts where
  claims : Bool                        -- record.identify(hash)
  ver : Res Bool                       -- record.verify(secret, hash, **acceptable keywords)
  stale : Res Bool                     -- record.needs_update(hash, secret=secret)
  badUndeclared : ErrKind := .typeError -- what verify raises for this hash when an undeclared keyword arrives: TypeError, unless the
                                       --   hasher refuses the hash string before it binds the keywords (then that error)
  badMissing : ErrKind := .typeError   -- the same when a required keyword is missing
  deriving Repr

inductive HashArg
  | none
  | other                              -- not str / bytes
  | str (f : String → SchemeFacts)     -- str or bytes (the context treats both alike)

/-- `config.context_kwds`: union of the schemes' context_kwds -/
def allKwds (c : Cfg) : List Kw := c.hashers.flatMap (·.contextKwds)

def findHasher (c : Cfg) (n : String) : Option Hasher := c.hashers.find? (fun h => h.name = n)

def mkRec (c : Cfg) (h : Hasher) (cat : Cat) : Rec := ⟨h, cat, c.dep.contains (h.name, cat)⟩

/-- `_records[scheme, cat]` as filled by `_init_records` -/
def recordsLookup (c : Cfg) (n : String) (cat : Cat) : Option Rec :=
  match findHasher c n with
  | none => none
  | some h =>
    match cat with
    | none => some (mkRec c h none)
    | some k => if c.cats.contains k && c.own.contains (n, k) then some (mkRec c h (some k)) else none

def lookupD (k : Cat) : List (Cat × String) → Option String
  | [] => none
  | (k', v) :: rest => if k' = k then some v else lookupD k rest

/-- `_CryptConfig.default_scheme(category)` (category already known to be str or None) -/
def defaultScheme (c : Cfg) (cat : Cat) : Res String :=
  match lookupD cat c.defaults with
  | some d => .ok d
  | none =>
    if c.hashers.isEmpty then .error .keyError
    else match lookupD none c.defaults with
      | some d => .ok d
      | none => .error .keyError

/-- `get_record(scheme, category)` for a non-empty str scheme -/
def getRecordNamed (c : Cfg) (n : String) (cat : Arg) : Res Rec :=
  match cat with
  | .other => .error .typeError                       -- ExpectedTypeError(category, "str or None") (or "unhashable type")
  | .none => match recordsLookup c n none with
    | some r => .ok r
    | none => .error .keyError
  | .str k => match recordsLookup c n (some k) with
    | some r => .ok r
    | none =>
      if k ≠ "" then                                    -- `if category:` — the empty string is NOT treated as a category
        match recordsLookup c n none with
        | some r => .ok r
        | none => .error .keyError
      else .error .keyError

def Arg.toCat : Arg → Cat
  | .str s => some s
  | _ => Option.none

/-- `get_record(scheme, category)` -/
def getRecord (c : Cfg) (scheme cat : Arg) : Res Rec :=
  let viaDefault : Res Rec :=
    match cat with
    | .other => .error .typeError
    | _ => match defaultScheme c cat.toCat with
      | .error e => .error e
      | .ok d => getRecordNamed c d cat
  match scheme with
  | .other => .error .typeError                       -- category check first, then ExpectedTypeError(scheme): TypeError both
  | .none => viaDefault
  | .str n => if n ≠ "" then getRecordNamed c n cat else viaDefault

/-- `_get_record_list(category)` -/
def recordList (c : Cfg) (cat : Arg) : Res (List Rec) := c.hashers.mapM (fun h => getRecordNamed c h.name cat)

/-- `identify_record(hash, category, required)` -/
def identifyRecord (c : Cfg) (hash : HashArg) (cat : Arg) (required : Bool) : Res (Option Rec) :=
  match hash with
  | .str f =>
    match recordList c cat with
    | .error e => .error e
    | .ok l =>
      match l.find? (fun r => (f r.hasher.name).claims) with
      | some r => .ok (some r)
      | none =>
        if !required then .ok none
        else if c.hashers.isEmpty then .error .keyError
        else .error .unknownHash
  | _ => .error .typeError

def Arg.truthy : Arg → Bool
  | .none => false
  | .str s => s ≠ ""
  | .other => true

/-- `_get_or_identify_record(hash, scheme, category)` -/
def getOrIdentify (c : Cfg) (hash : HashArg) (scheme cat : Arg) : Res Rec :=
  if scheme.truthy then
    match hash with
    | .str _ => getRecord c scheme cat
    | _ => .error .typeError
  else
    match identifyRecord c hash cat true with
    | .error e => .error e
    | .ok (some r) => .ok r
    | .ok none => .error .unknownHash                  -- unreachable (required=True)

/-! ### the context object: configuration + instance attributes -/
structure State where
  cfg : Cfg
  instNone : Bool      -- the instance attribute `_strip_unused_context_kwds = None` is present (shadows the method)
  dummy : Bool         -- `_dummy_hash` is memoized

/-- `CryptContext(_autoload=False)` -/
def State.raw : State := ⟨Cfg.empty, false, false⟩

inductive Event
  | load (c : Cfg)       -- load() / update() / copy() whose `_CryptConfig(source)` succeeded with configuration `c`
  | failed               -- a load()/update() that raised (or update() with nothing to change)

def step (st : State) : Event → State
  | .load c =>
    if !(allKwds c).isEmpty then ⟨c, false, false⟩     -- self.__dict__.pop("_strip_unused_context_kwds", None)
    else ⟨c, true, false⟩                               -- self._strip_unused_context_kwds = None
  | .failed => st

def run (st : State) (hist : List Event) : State := hist.foldl step st

/-- `_strip_unused_context_kwds(kwds, record)`: pop every key of `config.context_kwds - record.context_kwds` -/
def strip (c : Cfg) (r : Rec) (kws : List Kw) : List Kw :=
  kws.filter (fun k => !((allKwds c).contains k && !r.hasher.contextKwds.contains k))

/-- `strip_unused = self._strip_unused_context_kwds; if strip_unused: strip_unused(kwds, record)` -/
def passKwds (st : State) (r : Rec) (kws : List Kw) : List Kw :=
  if st.instNone then kws else strip st.cfg r kws

inductive Op | hash | verify | needsUpdate
  deriving DecidableEq, Repr

/-- one call of a hasher method made by the context -/
structure Call where
  scheme : String
  cat : Cat
  op : Op
  kws : List Kw
  deriving DecidableEq, Repr

def callOf (r : Rec) (op : Op) (kws : List Kw) : Call := ⟨r.hasher.name, r.cat, op, kws⟩

/-- `CryptContext.hash(secret, scheme, category, **kwds)` -/
def ctxHash (st : State) (scheme cat : Arg) (kws : List Kw) : List Call × Res Unit :=
  match getRecord st.cfg scheme cat with
  | .error e => ([], .error e)
  | .ok r =>
    let k := passKwds st r kws
    ([callOf r .hash k], r.hasher.accepts k)

/-- the hasher's verify: its answer when the keywords fit; otherwise the error the hasher gives for this hash (atoms) -/
def hasherVerify (r : Rec) (f : String → SchemeFacts) (k : List Kw) : Res Bool :=
  match r.hasher.problem k with
  | .fine => (f r.hasher.name).ver
  | .undeclared => .error (f r.hasher.name).badUndeclared
  | .missing => .error (f r.hasher.name).badMissing

/-- `verify` with a hash that is not None -/
def verifyHash (st : State) (hash : HashArg) (scheme cat : Arg) (kws : List Kw) : List Call × Res Bool :=
  match getOrIdentify st.cfg hash scheme cat with
  | .error e => ([], .error e)
  | .ok r =>
    match hash with
    | .str f =>
      let k := passKwds st r kws
      ([callOf r .verify k], hasherVerify r f k)
    | _ => ([], .error .typeError)                       -- unreachable: getOrIdentify refuses these

/-- `_dummy_kwds()`: the stand-in context keywords (`user`, `realm`) that some scheme of the context takes (fix ff50ac0: the dummy hash
    used to be made, and verified, without any keyword — a TypeError when the default scheme cannot hash without a user name) -/
def dummyKwds (st : State) : List Kw := ["user", "realm"].filter (fun k => (allKwds st.cfg).contains k)

/-- `dummy_verify()`; `dummyFacts` = the atoms of the hash the default scheme gives for the dummy secret -/
def dummyVerify (st : State) (dummyFacts : String → SchemeFacts) : List Call × Res Unit × State :=
  let (t1, r1, st1) : List Call × Res Unit × State :=
    if st.dummy then ([], .ok (), st)
    else match ctxHash st .none .none (dummyKwds st) with
      | (t, .error e) => (t, .error e, st)
      | (t, .ok _) => (t, .ok (), { st with dummy := true })
  match r1 with
  | .error e => (t1, .error e, st1)
  | .ok _ =>
    match verifyHash st1 (.str dummyFacts) .none .none (dummyKwds st1) with
    | (t2, .error e) => (t1 ++ t2, .error e, st1)
    | (t2, .ok _) => (t1 ++ t2, .ok (), st1)

/-- `CryptContext.verify(secret, hash, scheme, category, **kwds)` -/
def ctxVerify (st : State) (hash : HashArg) (scheme cat : Arg) (kws : List Kw) (dummyFacts : String → SchemeFacts) :
    List Call × Res Bool × State :=
  match hash with
  | .none =>
    match dummyVerify st dummyFacts with
    | (t, .error e, s) => (t, .error e, s)
    | (t, .ok _, s) => (t, .ok false, s)
  | _ => let (t, r) := verifyHash st hash scheme cat kws; (t, r, st)

inductive VauOut | fail | ok | rehash
  deriving DecidableEq, Repr

/-- `record.deprecated or record.needs_update(hash, secret=secret)` -/
def staleCheck (r : Rec) (f : String → SchemeFacts) : List Call × Res Bool :=
  if r.deprecated then ([], .ok true) else ([callOf r .needsUpdate []], (f r.hasher.name).stale)

/-- `CryptContext.verify_and_update(secret, hash, scheme, category, **kwds)` -/
def ctxVau (st : State) (hash : HashArg) (scheme cat : Arg) (kws : List Kw) (dummyFacts : String → SchemeFacts) :
    List Call × Res VauOut × State :=
  match hash with
  | .none =>
    match dummyVerify st dummyFacts with
    | (t, .error e, s) => (t, .error e, s)
    | (t, .ok _, s) => (t, .ok .fail, s)
  | .other => (match getOrIdentify st.cfg .other scheme cat with | .error e => ([], .error e, st) | .ok _ => ([], .error .typeError, st))
  | .str f =>
    match getOrIdentify st.cfg hash scheme cat with
    | .error e => ([], .error e, st)
    | .ok r =>
      let clean := if !st.instNone && !kws.isEmpty then strip st.cfg r kws else kws
      let t1 := [callOf r .verify clean]
      match hasherVerify r f clean with
      | .error e => (t1, .error e, st)
      | .ok false => (t1, .ok .fail, st)
      | .ok true =>
        match staleCheck r f with
        | (t2, .error e) => (t1 ++ t2, .error e, st)
        | (t2, .ok false) => (t1 ++ t2, .ok .ok, st)
        | (t2, .ok true) =>
          -- self.hash(secret, category=category, **kwds): the ORIGINAL keywords, stripped for the default scheme's record
          match ctxHash st .none cat kws with
          | (t3, .error e) => (t1 ++ t2 ++ t3, .error e, st)
          | (t3, .ok _) => (t1 ++ t2 ++ t3, .ok .rehash, st)

/-- `CryptContext.needs_update(hash, scheme, category)` -/
def ctxNeedsUpdate (st : State) (hash : HashArg) (scheme cat : Arg) : List Call × Res Bool :=
  match getOrIdentify st.cfg hash scheme cat with
  | .error e => ([], .error e)
  | .ok r =>
    match hash with
    | .str f => staleCheck r f
    | _ => ([], .error .typeError)

/-- `CryptContext.identify(hash, category, required=…)`: the scheme name or None -/
def ctxIdentify (st : State) (hash : HashArg) (cat : Arg) (required : Bool) : Res (Option String) :=
  match identifyRecord st.cfg hash cat required with
  | .error e => .error e
  | .ok r => .ok (r.map (·.hasher.name))

/-- `CryptContext.handler(scheme, category)`: KeyError of the lookup is re-raised as KeyError, anything else passes -/
def ctxHandler (st : State) (scheme cat : Arg) : Res Rec := getRecord st.cfg scheme cat

end Model.ContextKwds
