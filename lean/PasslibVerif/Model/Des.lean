import PasslibVerif.Gen.Des
/-
Transcription of /repo/passlib/crypto/des.py onto `Nat` (Python `int`) and `List Nat`
(Python `bytes`, each element < 256).  Every function is total and executable.  Python
statements are quoted in comments next to the Lean that models them.

Argument checking.  Python raises `ValueError` / `TypeError` on bad arguments; the model
returns `Except.error msg` with the same message for every `ValueError` that is reachable
with non-negative integers / byte strings.  The `x < 0` halves of the range checks and the
`isinstance` checks cannot fail for a `Nat` / `List Nat` argument and are therefore vacuous here
(`TypeError` branches are not modelled: the Lean types already exclude those inputs).
-/
namespace Model.Des
open Gen.Des

/-! ## `_permute` -/

/-- ```
    def _permute(c, p):
        out = 0
        for r in p:
            out |= r[c & 0xF]
            c >>= 4
        return out
    ```
    Loop state is the pair `(out, c)`.  Every row of every table has 16 entries, so the
    default of `getD` is never used. -/
def permute (c : Nat) (p : List (List Nat)) : Nat :=
  (p.foldl (fun (st : Nat × Nat) (r : List Nat) =>
      (st.1 ||| r.getD (st.2 &&& 0xF) 0,     -- out |= r[c & 0xF]
       st.2 >>> 4))                          -- c >>= 4
    (0, c)).1

/-! ## struct helpers (`_uint64_struct = struct.Struct(">Q")`) -/

/-- `_pack64(value)`: 8 bytes, big-endian.  (Python raises `struct.error` for
    `value ≥ 2**64`; all callers below guard that.) -/
def pack64 (value : Nat) : List Nat :=
  [56, 48, 40, 32, 24, 16, 8, 0].map (fun s => (value >>> s) &&& 0xFF)

/-- `_unpack64(value)`: big-endian bytes to int -/
def unpack64 (value : List Nat) : Nat :=
  value.foldl (fun acc b => acc * 256 + b) 0

/-- `_pack56(value) = _uint64_struct.pack(value)[1:]` -/
def pack56 (value : Nat) : List Nat := (pack64 value).drop 1

/-- `_unpack56(value) = _uint64_struct.unpack(b"\x00" + value)[0]` -/
def unpack56 (value : List Nat) : Nat := unpack64 (0 :: value)

/-! ## `expand_des_key` -/

/-- bytes branch of `expand_des_key`:
    ```
    if len(key) != 7: raise ValueError("key must be 7 bytes in size")
    key = _unpack56(key)
    return bytes(((key >> shift) & 0x7F) << 1 for shift in _EXPAND_ITER)
    ``` -/
def expandDesKeyBytes (key : List Nat) : Except String (List Nat) :=
  if key.length ≠ 7 then .error "key must be 7 bytes in size"
  else
    let key := unpack56 key
    .ok (_EXPAND_ITER.map (fun shift => ((key >>> shift) &&& 0x7F) <<< 1))

/-- int branch of `expand_des_key`:
    ```
    if key < 0 or key > INT_56_MASK: raise ValueError("key must be 56-bit non-negative integer")
    return _unpack64(expand_des_key(_pack56(key)))
    ``` -/
def expandDesKeyInt (key : Nat) : Except String Nat :=
  if key > INT_56_MASK then .error "key must be 56-bit non-negative integer"
  else (expandDesKeyBytes (pack56 key)).map unpack64

/-! ## `shrink_des_key` -/

/-- int branch of `shrink_des_key`:
    ```
    if key < 0 or key > INT_64_MASK: raise ValueError("key must be 64-bit non-negative integer")
    key >>= 1
    result = 0
    offset = 0
    while offset < 56:
        result |= (key & 0x7F) << offset
        key >>= 8
        offset += 7
    return result
    ```
    The `while` runs for `offset = 0, 7, …, 49`; loop state is `(result, key)`. -/
def shrinkDesKeyInt (key : Nat) : Except String Nat :=
  if key > INT_64_MASK then .error "key must be 64-bit non-negative integer"
  else
    let key := key >>> 1
    let st := [0, 7, 14, 21, 28, 35, 42, 49].foldl
      (fun (st : Nat × Nat) offset =>
        (st.1 ||| ((st.2 &&& 0x7F) <<< offset),   -- result |= (key & 0x7F) << offset
         st.2 >>> 8))                             -- key >>= 8
      (0, key)
    .ok st.1

/-- bytes branch of `shrink_des_key`:
    ```
    if len(key) != 8: raise ValueError("key must be 8 bytes in size")
    return _pack56(shrink_des_key(_unpack64(key)))
    ``` -/
def shrinkDesKeyBytes (key : List Nat) : Except String (List Nat) :=
  if key.length ≠ 8 then .error "key must be 8 bytes in size"
  else (shrinkDesKeyInt (unpack64 key)).map pack56

/-! ## `des_encrypt_int_block` -/

/-- ```
    def _iter_key_schedule(ks_odd):
        for p_even, p_odd in PCXROT:
            ks_even = _permute(ks_odd, p_even)
            ks_odd = _permute(ks_even, p_odd)
            yield ks_even & _KS_MASK, ks_odd & _KS_MASK
    ``` -/
def iterKeySchedule (ks_odd : Nat) : List (List (List Nat) × List (List Nat)) → List (Nat × Nat)
  | [] => []
  | (p_even, p_odd) :: rest =>
    let ks_even := permute ks_odd p_even
    let ks_odd := permute ks_even p_odd
    (ks_even &&& _KS_MASK, ks_odd &&& _KS_MASK) :: iterKeySchedule ks_odd rest

/-- `ks_list = list(_iter_key_schedule(key))` -/
def ksList (key : Nat) : List (Nat × Nat) := iterKeySchedule key PCXROT

/-- ```
    salt = (((salt & 0x00003F) << 26) | ((salt & 0x000FC0) << 12)
          | ((salt & 0x03F000) >> 2) | ((salt & 0xFC0000) >> 16))
    ``` -/
def expandSalt (salt : Nat) : Nat :=
  ((salt &&& 0x00003F) <<< 26)
  ||| ((salt &&& 0x000FC0) <<< 12)
  ||| ((salt &&& 0x03F000) >>> 2)
  ||| ((salt &&& 0xFC0000) >>> 16)

/-- `SPEj = SPE[j]` (`SPE0, …, SPE7 = SPE`) -/
def SPEj (j : Nat) : List Nat := SPE.getD j []

/-- ```
    SPE0[(B >> 58) & 0x3F] ^ SPE1[(B >> 50) & 0x3F] ^ SPE2[(B >> 42) & 0x3F] ^ SPE3[(B >> 34) & 0x3F]
    ^ SPE4[(B >> 26) & 0x3F] ^ SPE5[(B >> 18) & 0x3F] ^ SPE6[(B >> 10) & 0x3F] ^ SPE7[(B >> 2) & 0x3F]
    ``` -/
def speXor (B : Nat) : Nat :=
  (SPEj 0).getD ((B >>> 58) &&& 0x3F) 0
  ^^^ (SPEj 1).getD ((B >>> 50) &&& 0x3F) 0
  ^^^ (SPEj 2).getD ((B >>> 42) &&& 0x3F) 0
  ^^^ (SPEj 3).getD ((B >>> 34) &&& 0x3F) 0
  ^^^ (SPEj 4).getD ((B >>> 26) &&& 0x3F) 0
  ^^^ (SPEj 5).getD ((B >>> 18) &&& 0x3F) 0
  ^^^ (SPEj 6).getD ((B >>> 10) &&& 0x3F) 0
  ^^^ (SPEj 7).getD ((B >>> 2) &&& 0x3F) 0

/-- one half-step: `k = ((R >> 32) ^ R) & salt; B = (k << 32) ^ k ^ R ^ ks; … SPE lookups …` -/
def halfStep (X ks salt : Nat) : Nat :=
  let k := ((X >>> 32) ^^^ X) &&& salt          -- k = ((R >> 32) ^ R) & salt
  let B := (k <<< 32) ^^^ k ^^^ X ^^^ ks        -- B = (k << 32) ^ k ^ R ^ ks_even
  speXor B

/-- body of `for ks_even, ks_odd in ks_list:`; state `(L, R)` -/
def roundPair (salt : Nat) (LR : Nat × Nat) (ks : Nat × Nat) : Nat × Nat :=
  let L := LR.1 ^^^ halfStep LR.2 ks.1 salt     -- L ^= SPE…(R, ks_even)
  let R := LR.2 ^^^ halfStep L ks.2 salt        -- R ^= SPE…(L, ks_odd)
  (L, R)

/-- ```
    while rounds:
        rounds -= 1
        for ks_even, ks_odd in ks_list: …
        L, R = R, L
    ``` -/
def mainLoop (ks_list : List (Nat × Nat)) (salt : Nat) : Nat → Nat × Nat → Nat × Nat
  | 0, LR => LR
  | rounds + 1, LR =>
    let LR' := ks_list.foldl (roundPair salt) LR
    mainLoop ks_list salt rounds (LR'.2, LR'.1)   -- L, R = R, L

/-- ```
    if input == 0: L = R = 0
    else:
        L = ((input >> 31) & 0xAAAAAAAA) | (input & 0x55555555);        L = _permute(L, IE3264)
        R = ((input >> 32) & 0xAAAAAAAA) | ((input >> 1) & 0x55555555); R = _permute(R, IE3264)
    ``` -/
def initLR (input : Nat) : Nat × Nat :=
  if input = 0 then (0, 0)
  else
    let L := ((input >>> 31) &&& 0xAAAAAAAA) ||| (input &&& 0x55555555)
    let L := permute L IE3264
    let R := ((input >>> 32) &&& 0xAAAAAAAA) ||| ((input >>> 1) &&& 0x55555555)
    let R := permute R IE3264
    (L, R)

/-- ```
    C = (((L >> 3) & 0x0F0F0F0F00000000) | ((L << 33) & 0xF0F0F0F000000000)
       | ((R >> 35) & 0x000000000F0F0F0F) | ((R << 1) & 0x00000000F0F0F0F0))
    return _permute(C, CF6464)
    ``` -/
def finalCF (LR : Nat × Nat) : Nat :=
  let L := LR.1
  let R := LR.2
  let C := ((L >>> 3) &&& 0x0F0F0F0F00000000)
        ||| ((L <<< 33) &&& 0xF0F0F0F000000000)
        ||| ((R >>> 35) &&& 0x000000000F0F0F0F)
        ||| ((R <<< 1) &&& 0x00000000F0F0F0F0)
  permute C CF6464

/-- the computational part of `des_encrypt_int_block`, after validation -/
def desCore (key input salt rounds : Nat) : Nat :=
  let ks_list := ksList key
  let salt := expandSalt salt
  finalCF (mainLoop ks_list salt rounds (initLR input))

/-- `des_encrypt_int_block(key, input, salt=0, rounds=1)`.  Guards, in Python order:
    ```
    if rounds < 1: raise ValueError("rounds must be positive integer")
    if salt < 0 or salt > INT_24_MASK: raise ValueError("salt must be 24-bit non-negative integer")
    if key < 0 or key > INT_64_MASK: raise ValueError("key must be 64-bit non-negative integer")
    if input < 0 or input > INT_64_MASK: raise ValueError("input must be 64-bit non-negative integer")
    ``` -/
def desEncryptIntBlock (key input : Nat) (salt : Nat := 0) (rounds : Nat := 1) : Except String Nat :=
  if rounds < 1 then .error "rounds must be positive integer"
  else if salt > INT_24_MASK then .error "salt must be 24-bit non-negative integer"
  else if key > INT_64_MASK then .error "key must be 64-bit non-negative integer"
  else if input > INT_64_MASK then .error "input must be 64-bit non-negative integer"
  else .ok (desCore key input salt rounds)

/-! ## `des_encrypt_block` (bytes level) -/

/-- ```
    if len(key) == 7: key = expand_des_key(key)
    elif len(key) != 8: raise ValueError("key must be 7 or 8 bytes")
    key = _unpack64(key)
    if len(input) != 8: raise ValueError("input block must be 8 bytes")
    input = _unpack64(input)
    result = des_encrypt_int_block(key, input, salt, rounds)
    return _pack64(result)
    ``` -/
def desEncryptBlock (key input : List Nat) (salt : Nat := 0) (rounds : Nat := 1) :
    Except String (List Nat) := do
  let key ←
    if key.length = 7 then expandDesKeyBytes key
    else if key.length ≠ 8 then .error "key must be 7 or 8 bytes"
    else .ok key
  let key := unpack64 key
  if input.length ≠ 8 then .error "input block must be 8 bytes"
  else
    let input := unpack64 input
    let result ← desEncryptIntBlock key input salt rounds
    .ok (pack64 result)

end Model.Des
