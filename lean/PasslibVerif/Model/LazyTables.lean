import PasslibVerif.Py.Basic
/-
Lazily built module-level tables used from several threads (passlib.crypto.des `_load_tables`, passlib.crypto._blowfish.base
`_init_constants`):

    T_0 = T_1 = … = None                        # module level
    def load():  T_0 = …; T_1 = …; …; T_{k-1} = …        # one assignment after the other (values are constants)
    def use():   if T_g is None: load()                  # the guard tests ONE table
                 … reads T_0 … T_{k-1} …

Any number of threads, preemption between any two statements.  Every loader assigns the tables in the same order and a table once
assigned stays assigned (same constant value), so the global state is the number `m` of leading tables that are set.
-/
namespace Model.LazyTables

structure Cfg where
  k : Nat          -- number of tables
  guard : Nat      -- index (in assignment order) of the table the guard tests
  deriving DecidableEq, Repr

inductive PC
  | start
  | loading (i : Nat)      -- inside load(): about to assign table i
  | reading (j : Nat)      -- after the guard: about to read table j
  | done
  | failed                 -- read a table that is still None (TypeError in the real code)
  deriving DecidableEq, Repr

structure St where
  m : Nat                  -- tables 0 … m-1 are assigned
  pc : Nat → PC            -- thread id ↦ program counter

def init : St := ⟨0, fun _ => .start⟩

def setPc (s : St) (t : Nat) (p : PC) : St := { s with pc := fun u => if u = t then p else s.pc u }

/-- one statement of thread `t` -/
def step (c : Cfg) (s : St) (t : Nat) : St :=
  match s.pc t with
  | .start => if c.guard < s.m then setPc s t (.reading 0) else setPc s t (.loading 0)
  | .loading i => if i < c.k then setPc { s with m := max s.m (i + 1) } t (.loading (i + 1)) else setPc s t (.reading 0)
  | .reading j => if j < c.k then (if j < s.m then setPc s t (.reading (j + 1)) else setPc s t .failed) else setPc s t .done
  | .done => s
  | .failed => s

/-- a schedule: which thread runs the next statement -/
def run (c : Cfg) (s : St) (sched : List Nat) : St := sched.foldl (step c) s

/-- index of a name in the assignment order -/
def indexOf (order : List String) (name : String) : Nat := order.idxOf name

end Model.LazyTables
