import PasslibVerif.Py.Basic
import PasslibVerif.Py.Int
import PasslibVerif.Model.Handler
import PasslibVerif.Model.UsingSalt
import PasslibVerif.Model.Disabled
import PasslibVerif.Model.Formats.MiscScram
import PasslibVerif.Gen.Decisions
import PasslibVerif.Gen.UsingMisc
/-
Model of the remaining settings of `using()` (C09), statement by statement:

  * `fshp.using(variant=)` / `fshp._norm_variant` / the variant of the next hash (`fshp.__init__` with `use_defaults`);
  * `ParallelismMixin.using(parallelism=)` and `scrypt.using(block_size=)` (in MRO order: the mixin first, then scrypt's own block,
    then `passlib.crypto.scrypt.validate(1 << default_rounds, block_size, parallelism)`), `norm_integer` being the function
    GENERATED from the source (`Gen.Decisions.normInteger`); `scrypt._calc_needs_update` → `ParallelismMixin._calc_needs_update` → …
    (both generated, `Gen.Decisions`);
  * `bcrypt_sha256.using(version=)` / `_norm_version` / the "version 2 admits $2b$ only" rule, after `HasManyIdents.using(ident=)`
    (`Model.UsingSalt.usingIdent`); `bcrypt_sha256._calc_needs_update` (generated);
  * `scram.using(default_algs=, algs=)` / `_norm_algs` (`Model.Formats.scramNormAlgs`: the full `norm_hash_name(…, "iana")` model),
    `scram._calc_needs_update`, the algs of the next hash (`scram.__init__` with `use_defaults`);
  * `unix_disabled.using(marker=)` and what `unix_disabled.hash()` then returns.

All tables (variant info / aliases, supported versions, idents, default algs, marker characters, the `min=` of the two
`norm_integer` calls, MAX_RP) are read from the source by the translator (`Gen.UsingMisc`, `Gen.Disabled`).
-/
namespace Model.UsingMisc
open Py Model.Handler

/-! ### fshp: variant -/

/-- `variant=` as the caller may pass it -/
inductive VariantArg
  | none
  | int (n : Int)           -- int (a bool is an int: True = 1)
  | str (s : Str)
  | bytes (b : Bytes)
  | other                   -- float, list, … : neither bytes, str nor int
  deriving DecidableEq, Repr

def variantInfo : List (Int × Str × Nat) := Gen.UsingMisc.fshpVariantInfo
def variantAliases : List (Str × Int) := Gen.UsingMisc.fshpVariantAliases

/-- `variant in cls._variant_info` -/
def isVariant (n : Int) : Bool := variantInfo.any (·.1 = n)

/-- `fshp._norm_variant(variant)` -/
def normVariant : VariantArg → Res Int
  | .bytes b =>
    -- `variant.decode("ascii")` (UnicodeDecodeError is a ValueError), then the str branch
    if b.all (· < 128) then
      match variantAliases.lookup b with
      | some v => if isVariant v then .ok v else .error .valueError
      | none => .error .valueError
    else .error .valueError
  | .str s =>
    match variantAliases.lookup s with           -- `cls._variant_aliases[variant]`, KeyError → ValueError
    | some v => if isVariant v then .ok v else .error .valueError
    | none => .error .valueError
  | .int n => if isVariant n then .ok n else .error .valueError
  | .other => .error .typeError
  | .none => .error .typeError                    -- None is not an int either

/-- `fshp.using(variant=…)`: the new class's `default_variant` -/
def usingVariant (parent : Int) : VariantArg → Res Int
  | .none => .ok parent
  | a => normVariant a

/-- the variant of the next hash: `fshp(use_defaults=True)` — `variant = self.default_variant; assert self._norm_variant(variant) == variant` -/
def initVariant (dflt : Int) : Res Int :=
  match normVariant (.int dflt) with
  | .error e => .error e                       -- the call inside the assert raises first
  | .ok v => if v = dflt then .ok dflt else .error .assertionError

/-- digest size of a variant (`checksum_size`), `none` for an unknown one -/
def variantDigestSize (v : Int) : Option Nat := (variantInfo.find? (·.1 = v)).map (·.2.2)

/-- fshp has no `_calc_needs_update` of its own (checked by the translator): the answer is the one of `HasRounds`, whatever
    variant the hash carries and whatever variant the class is configured with -/
def fshpNeedsUpdate (_configured _own : Int) (roundsAnswer : Bool) : Bool := roundsAnswer

/-! ### scrypt: parallelism, block_size -/

/-- an integer keyword as the caller may pass it -/
inductive IntArg
  | none
  | int (n : Int)           -- int (bool included)
  | str (s : Str)           -- text (e.g. from a configuration file)
  | other                   -- float, bytes, … : `norm_integer` raises ExpectedTypeError (a TypeError)
  deriving DecidableEq, Repr

structure ScryptCls where
  parallelism : Int
  blockSize : Int
  defaultRounds : Nat       -- after `HasRounds.using` (the log2 cost of the next hash)
  deriving DecidableEq, Repr

def scryptBase : ScryptCls := ⟨Gen.UsingMisc.scryptParallelism, Gen.UsingMisc.scryptBlockSize, Gen.UsingMisc.scryptDefaultRounds⟩

/-- `if isinstance(x, str): x = int(x)` followed by `norm_integer(cls, x, min=lo, relaxed=relaxed)` -/
def normIntArg (lo : Int) (relaxed : Bool) : IntArg → Res Int
  | .none => .error .typeError
  | .int n => Gen.Decisions.normInteger n lo Option.none relaxed
  | .str s =>
    match pyIntOfStr s with
    | some n => Gen.Decisions.normInteger n lo Option.none relaxed
    | Option.none => .error .valueError
  | .other => .error .typeError

/-- `passlib.crypto.scrypt.validate(n, r, p)` -/
def validate (n : Nat) (r p : Int) : Res Unit :=
  if r < 1 then .error .valueError
  else if p < 1 then .error .valueError
  else if r * p > Gen.UsingMisc.scryptMaxRP then .error .valueError
  else if n < 2 ∨ (n &&& (n - 1)) ≠ 0 then .error .valueError
  else .ok ()

/-- `ParallelismMixin.using(parallelism=, relaxed=)` -/
def usingParallelism (c : ScryptCls) (relaxed : Bool) : IntArg → Res ScryptCls
  | .none => .ok c
  | a => match normIntArg Gen.UsingMisc.parallelismMin relaxed a with
    | .ok v => .ok { c with parallelism := v }
    | .error e => .error e

/-- the `block_size` statement of `scrypt.using` -/
def usingBlockSize (c : ScryptCls) (relaxed : Bool) : IntArg → Res ScryptCls
  | .none => .ok c
  | a => match normIntArg Gen.UsingMisc.scryptBlockSizeMin relaxed a with
    | .ok v => .ok { c with blockSize := v }
    | .error e => .error e

/-- `scrypt.using(parallelism=, block_size=, relaxed=)` after the rounds / salt / ident mixins have answered: the mixin's
    `using` (inside `super().using`), scrypt's own block, then "make sure param combination is valid for scrypt()" -/
def usingScrypt (c : ScryptCls) (relaxed : Bool) (parallelism blockSize : IntArg) : Res ScryptCls :=
  match usingParallelism c relaxed parallelism with
  | .error e => .error e
  | .ok c1 =>
    match usingBlockSize c1 relaxed blockSize with
    | .error e => .error e
    | .ok c2 =>
      match validate (1 <<< c2.defaultRounds) c2.blockSize c2.parallelism with
      | .error e => .error e
      | .ok () => .ok c2

/-- the settings of the next hash: `scrypt(use_defaults=True)` — `assert validate_default_value(self, self.parallelism, …)` in
    `ParallelismMixin.__init__`, then the same for `block_size` -/
def initScrypt (c : ScryptCls) : Res (Int × Int) :=
  -- `assert norm(default) == default`: an exception of `norm` comes first
  match Gen.Decisions.normInteger c.parallelism Gen.UsingMisc.parallelismMin Option.none false with
  | .error e => .error e
  | .ok p =>
    if p ≠ c.parallelism then .error .assertionError
    else match Gen.Decisions.normInteger c.blockSize Gen.UsingMisc.scryptBlockSizeMin Option.none false with
      | .error e => .error e
      | .ok b => if b ≠ c.blockSize then .error .assertionError else .ok (c.blockSize, c.parallelism)

/-- `scrypt._calc_needs_update` → `ParallelismMixin._calc_needs_update` → `HasRounds._calc_needs_update` (its answer: `roundsAnswer`) -/
def scryptNeedsUpdate (c : ScryptCls) (ownBlockSize ownParallelism : Int) (roundsAnswer : Bool) : Res Bool :=
  match Gen.Decisions.parallelismNeedsUpdate ownParallelism c.parallelism roundsAnswer with
  | .error e => .error e
  | .ok sup => Gen.Decisions.scryptNeedsUpdate ownBlockSize c.blockSize sup

/-! ### bcrypt_sha256: version -/

/-- `version=` as the caller may pass it -/
inductive VerArg
  | none
  | int (n : Int)           -- int / bool
  | str (s : Str)           -- text: `int(version)`
  | floatInt (n : Int)      -- a float equal to the integer n (2.0 == 2 and hash(2.0) == hash(2): found in the set)
  | other                   -- any other hashable value (bytes, 1.5, a tuple), or a set (looked up as a frozenset): not in the set
  | unhashable              -- list / dict: `in` on a set raises TypeError
  deriving DecidableEq, Repr

def supportedVersions : List Int := Gen.UsingMisc.bcryptSha256SupportedVersions
def IDENT_2B : Str := Gen.UsingMisc.IDENT_2B

/-- `bcrypt_sha256._norm_version(version)` on a number -/
def normVersion (n : Int) : Res Int := if supportedVersions.contains n then .ok n else .error .valueError

/-- `if isinstance(version, str): version = int(version)` then `_norm_version` -/
def versionOfArg : VerArg → Res Int
  | .none => .error .typeError
  | .int n => normVersion n
  | .floatInt n => normVersion n
  | .str s => match pyIntOfStr s with | some n => normVersion n | Option.none => .error .valueError
  | .other => .error .valueError
  | .unhashable => .error .typeError

structure BsCls where
  ident : Model.UsingSalt.IdentCls
  version : Int
  deriving DecidableEq, Repr

def bsBase : BsCls :=
  ⟨⟨Gen.UsingMisc.bcryptSha256IdentValues, Gen.UsingMisc.bcryptSha256IdentAliases, Gen.UsingMisc.bcryptSha256DefaultIdent⟩,
   Gen.UsingMisc.bcryptSha256Version⟩

/-- the `version` statement of `bcrypt_sha256.using` -/
def usingVersion (parent : Int) : VerArg → Res Int
  | .none => .ok parent
  | a => versionOfArg a

/-- `bcrypt_sha256.using(version=, ident=/default_ident=)`: the ident mixin answers first (inside `super().using`), then the
    version, then the combination rule -/
def usingBs (c : BsCls) (defaultIdent ident : Option Str) (version : VerArg) : Res BsCls :=
  match Model.UsingSalt.usingIdent c.ident defaultIdent ident with
  | .error e => .error e
  | .ok ic =>
    match usingVersion c.version version with
    | .error e => .error e
    | .ok v =>
      -- `if subcls.version > 1 and ident != IDENT_2B: raise ValueError`
      if v > 1 ∧ ic.default ≠ IDENT_2B then .error .valueError
      else .ok { ident := ic, version := v }

/-- `bcrypt_sha256._calc_needs_update` (generated) with the answer of the bcrypt classes below it -/
def bsNeedsUpdate (c : BsCls) (ownVersion : Int) (superAnswer : Bool) : Res Bool :=
  Gen.Decisions.bcryptSha256NeedsUpdate ownVersion c.version superAnswer

/-! ### scram: algs -/

/-- `algs=` / `default_algs=` as the caller may pass them -/
inductive AlgsArg
  | none
  | list (l : List Str)     -- list / tuple of names
  | text (s : Str)          -- comma separated text
  | other                   -- not iterable (an int): TypeError
  deriving DecidableEq, Repr

/-- `scram._norm_algs(algs)` -/
def normAlgs : AlgsArg → Res (List Str)
  | .none => .error .typeError
  | .list l => Model.Formats.scramNormAlgs l
  | .text s => Model.Formats.scramNormAlgs (Model.Formats.splitComma s)
  | .other => .error .typeError

/-- `scram.using(default_algs=, algs=)`: the new class's `default_algs` -/
def usingAlgs (parent : List Str) (defaultAlgs algs : AlgsArg) : Res (List Str) :=
  -- `if algs is not None: assert default_algs is None; default_algs = algs`
  let d : Res AlgsArg :=
    match algs with
    | .none => .ok defaultAlgs
    | a => if defaultAlgs = .none then .ok a else .error .assertionError
  match d with
  | .error e => .error e
  | .ok .none => .ok parent
  | .ok a => normAlgs a

/-- the algs of the next hash: `algs = list(self.default_algs); assert self._norm_algs(algs) == algs` -/
def initAlgs (dflt : List Str) : Res (List Str) :=
  match Model.Formats.scramNormAlgs dflt with
  | .ok l => if l = dflt then .ok dflt else .error .assertionError
  | .error e => .error e

/-- `scram._calc_needs_update`: `not set(self.algs).issuperset(self.default_algs)` -/
def scramNeedsUpdate (configured own : List Str) (roundsAnswer : Bool) : Bool :=
  if !(configured.all own.contains) then true else roundsAnswer

/-- where the `str.lower` model under `norm_hash_name` claims faithfulness (no U+03A3: CPython's final-sigma rule) -/
def algsModelled : AlgsArg → Bool
  | .list l => l.all Model.Formats.scramModelled
  | .text s => Model.Formats.scramModelled s
  | _ => true

/-! ### unix_disabled: marker -/

/-- `marker=` as the caller may pass it -/
inductive MarkerArg
  | none
  | str (s : Str)
  | bytes (b : Bytes)
  | other                   -- neither str nor bytes: ExpectedStringError (a TypeError)
  deriving DecidableEq, Repr

/-- the stored `default_marker` -/
inductive Marker
  | str (s : Str)
  | bytes (b : Bytes)
  deriving DecidableEq, Repr

/-- `unix_disabled.identify(x)`: empty, or first element among the marker characters (`_MARKER_CHARS` / `_MARKER_BYTES`) -/
def identifyStr (s : Str) : Bool := Model.Disabled.unixIdentify s
def identifyBytes (b : Bytes) : Bool :=
  b.isEmpty || (match b.head? with | some c => Gen.Disabled.MARKER_BYTES.contains c | Option.none => false)

def unixBase : Marker := .str Gen.Disabled.defaultMarker

/-- `unix_disabled.using(marker=…)` -/
def usingMarker (parent : Marker) : MarkerArg → Res Marker
  | .none => .ok parent
  -- `if not marker or not cls.identify(marker): raise ValueError`
  | .str s => if s.isEmpty then .error .valueError else if identifyStr s then .ok (.str s) else .error .valueError
  | .bytes b => if b.isEmpty then .error .valueError else if identifyBytes b then .ok (.bytes b) else .error .valueError
  | .other => .error .typeError

/-- `unix_disabled.hash(secret)` for a valid secret: `assert marker; assert cls.identify(marker); return to_native_str(marker)`.
    A bytes marker is decoded as UTF-8: modelled for ASCII bytes (`markerModelled`). -/
def hashOut : Marker → Res Str
  | .str s => if s.isEmpty then .error .assertionError else if identifyStr s then .ok s else .error .assertionError
  | .bytes b => if b.isEmpty then .error .assertionError else if identifyBytes b then .ok b else .error .assertionError

def markerModelled : Marker → Bool
  | .str _ => true
  | .bytes b => b.all (· < 128)

end Model.UsingMisc
