import PasslibVerif.Gen.ShaCrypt
import PasslibVerif.Gen.B64
import PasslibVerif.Model.B64
/-
Model of passlib's optimised md5-crypt / sha256-crypt / sha512-crypt back ends
(`passlib/handlers/sha2_crypt.py::_raw_sha2_crypt`, `passlib/handlers/md5_crypt.py::_raw_md5_crypt`,
`libpass/hashers/sha_crypt.py::_sha_crypt`), statement by statement.  The statement list the model follows is
pinned by the translator unit `ShaCrypt` (tools/extract_units_shacrypt.py); the offsets table, the order of `perms`
and the magic strings come from `Gen.ShaCrypt`, the transposition tables and the hash64 alphabet from `Gen.B64`.

A hashlib object is modelled by the bytes fed to it so far: `h = H(x); h.update(y); h.digest()` is `H (x ++ y)`.
-/
namespace Model.ShaCrypt
open Py Gen.ShaCrypt

/-- `repeat_string(source, size)`: `mult = 1 + (size - 1) // len(source); (source * mult)[:size]`
    (Python floor division: for `size = 0` the multiplier is `1 + (-1 // len) = 0`) -/
def repeatString (src : Bytes) (size : Nat) : Bytes :=
  let mult := if size = 0 then 0 else 1 + (size - 1) / src.length
  ((List.replicate mult src).flatten).take size

/-- `while i: ctx.update(one if i & 1 else zero); i >>= 1` — the bytes fed to the context -/
def bitLoop (one zero : Bytes) : Nat → Nat → Bytes
  | 0, _ => []
  | fuel + 1, i => if i = 0 then [] else (if i &&& 1 ≠ 0 then one else zero) ++ bitLoop one zero fuel (i >>> 1)

/-- `tmp_ctx = H(pwd); i = pwd_len - 1; while i: tmp_ctx.update(pwd); i -= 1` — the bytes fed to the context -/
def feedLoop (pwd : Bytes) : Nat → Bytes → Bytes
  | 0, acc => acc
  | i + 1, acc => feedLoop pwd i (acc ++ pwd)

def interp (dp ds : Bytes) : List PS → Bytes
  | [] => []
  | PS.p :: r => dp ++ interp dp ds r
  | PS.s :: r => ds ++ interp dp ds r

/-- `perms = [...]`, `data = [(perms[even], perms[odd]) for even, odd in _c_digest_offsets]` -/
def dataOf (offsets : List (Nat × Nat)) (perms : List (List PS)) (dp ds : Bytes) : List (Bytes × Bytes) :=
  offsets.map fun eo => (interp dp ds (perms.getD eo.1 []), interp dp ds (perms.getD eo.2 []))

/-- `dc = H(odd + H(dc + even).digest()).digest()` -/
def pairStep (H : Bytes → Bytes) (eo : Bytes × Bytes) (dc : Bytes) : Bytes := H (eo.2 ++ H (dc ++ eo.1))

/-- `for even, odd in l: dc = …` -/
def runPairs (H : Bytes → Bytes) (l : List (Bytes × Bytes)) (dc : Bytes) : Bytes :=
  l.foldl (fun d eo => pairStep H eo d) dc

/-- `while blocks: (for …); blocks -= 1` -/
def iter {α} (f : α → α) : Nat → α → α
  | 0, x => x
  | n + 1, x => iter f n (f x)

/-- the digest-C part: `blocks, tail = divmod(rounds, 42)` … -/
def roundsLoop (H : Bytes → Bytes) (data : List (Bytes × Bytes)) (rounds : Nat) (da : Bytes) : Bytes :=
  let blocks := rounds / 42
  let tail := rounds % 42
  let dc := iter (runPairs H data) blocks da
  if tail ≠ 0 then
    let pairs := tail >>> 1
    let dc := runPairs H (data.take pairs) dc
    if tail &&& 1 ≠ 0 then H (dc ++ (data.getD pairs ([], [])).1) else dc
  else dc

/-- the final digest `dc` of `_raw_sha2_crypt` / `_sha_crypt` -/
def sha2Digest (offsets : List (Nat × Nat)) (perms : List (List PS)) (H : Bytes → Bytes) (pwd salt : Bytes) (rounds : Nat) : Bytes :=
  let pwdLen := pwd.length
  let db := H (pwd ++ salt ++ pwd)
  let da := H (pwd ++ salt ++ repeatString db pwdLen ++ bitLoop db pwd pwdLen pwdLen)
  let dp :=
    if pwdLen < 96 then repeatString (H (List.replicate pwdLen pwd).flatten) pwdLen
    else repeatString (H (feedLoop pwd (pwdLen - 1) pwd)) pwdLen
  let ds := (H (List.replicate (16 + da.getD 0 0) salt).flatten).take salt.length
  roundsLoop H (dataOf offsets perms dp ds) rounds da

/-- `h64.encode_transposed_bytes(dc, transpose_map)` -/
def encodeWith (map : List Nat) (dc : Bytes) : Res Bytes := Model.B64.encodeTransposed Model.B64.h64 dc map

def rawSha256 (H : Bytes → Bytes) (pwd salt : Bytes) (rounds : Nat) : Res Bytes :=
  encodeWith Gen.B64.sha256_transpose_map (sha2Digest sha2Offsets sha2Perms H pwd salt rounds)

def rawSha512 (H : Bytes → Bytes) (pwd salt : Bytes) (rounds : Nat) : Res Bytes :=
  encodeWith Gen.B64.sha512_transpose_map (sha2Digest sha2Offsets sha2Perms H pwd salt rounds)

/-- libpass: same function text, its own copies of the tables, its own Base64 engine -/
def lpEncodeWith (map : List Nat) (dc : Bytes) : Res Bytes :=
  match Model.B64.transpose dc map with
  | some t => .ok (Model.B64.lpEncodeBytes Model.B64.lpH64 t)
  | none => .error .indexError

def lpSha256 (H : Bytes → Bytes) (pwd salt : Bytes) (rounds : Nat) : Res Bytes :=
  lpEncodeWith Gen.B64.lp_sha256_transpose_map (sha2Digest lpOffsets lpPerms H pwd salt rounds)

def lpSha512 (H : Bytes → Bytes) (pwd salt : Bytes) (rounds : Nat) : Res Bytes :=
  lpEncodeWith Gen.B64.lp_sha512_transpose_map (sha2Digest lpOffsets lpPerms H pwd salt rounds)

/-- the final digest `dc` of `_raw_md5_crypt` (`blocks = 23`, then `data[:17]`: 23·42 + 34 = 1000 rounds) -/
def md5Digest (H : Bytes → Bytes) (magic pwd salt : Bytes) : Bytes :=
  let pwdLen := pwd.length
  let db := H (pwd ++ salt ++ pwd)
  let da := H (pwd ++ magic ++ salt ++ repeatString db pwdLen ++ bitLoop [0] (pwd.take 1) pwdLen pwdLen)
  let data := dataOf md5Offsets md5Perms pwd salt
  let dc := iter (runPairs H data) 23 da
  runPairs H (data.take 17) dc

def rawMd5 (H : Bytes → Bytes) (apr : Bool) (pwd salt : Bytes) : Res Bytes :=
  encodeWith Gen.B64.md5_transpose_map (md5Digest H (if apr then aprMagic else md5Magic) pwd salt)

end Model.ShaCrypt
