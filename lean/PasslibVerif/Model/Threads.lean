/-
Interleaving semantics for passlib's "initialise on first use" protocols (C19).

A protocol is DATA: a list of micro-instructions (`Instr`) produced by the translator unit `Threads` from the Python source
(`Gen/Threads.lean`).  Every micro-instruction performs AT MOST ONE access to state that other threads can see (one
attribute load / store / delete on the shared object or class, one lock operation, the start or the end of the slow
initialiser, one call of `onload`).  Under the GIL each such access is atomic and purely thread-local work commutes with
everything, so interleaving micro-instructions covers every bytecode-level interleaving of the real protocol.

  * a program      `Prog` = instruction list + initial shared state; the source position of every instruction is kept in a
                   separate generated module (`Gen/ThreadsLines.lean`, used only by the correspondence driver), so that a pure
                   shift of line numbers in the source does not touch any proof
  * shared state   `sh : Nat`  — up to 3-bit fields (`getF` / `setF`), field meaning is fixed by the translator
                   fields 0..3 have a fixed meaning for every protocol:
                     0 `inits`   how often the slow initialiser was started   (0, 1, 2 = more than once)
                     1 `built`   0 nothing built, 1 initialiser running (half built), 2 completely built
                     2 `cfg`     which argument the (last started) initialiser was given
                     3 `onloads` how often `onload` was called               (0, 1, 2 = more than once)
  * one re-entrant lock  `lock : Option Tid`   (the module level `RLock` of the protocol)
  * per thread      `Local`: program counter, registers (3-bit fields), re-entrancy depth, outcome
  * `step : World → Tid → World`  — thread `t` performs its next micro-instruction; a thread waiting for the lock and a
    finished thread stutter.

`step` is defined through the thread's *view* (`View`: shared state, the lock as this thread sees it — free / mine / held
by somebody else —, its own locals): `lstep` is the semantics of one instruction on a view, `step` writes the result back.
That `lstep` never changes a lock held by somebody else is `lstep_other` (Lemmas/Threads.lean).
-/
namespace Model.Threads

abbrev Tid := Nat

inductive Kind | attributeError | typeError | assertionError | keyError | runtimeError | missingBackendError | valueError
deriving DecidableEq, Repr

inductive Outcome | ok (v : Nat) | exc (k : Kind)
deriving DecidableEq, Repr

/-- field `i` (3 bits) of a packed state -/
def getF (s i : Nat) : Nat := (s >>> (3 * i)) % 8
/-- packed state with field `i` replaced by `v % 8` -/
def setF (s i v : Nat) : Nat := s - (getF s i) <<< (3 * i) + (v % 8) <<< (3 * i)

/-- saturating call counter: 0, 1, "2 or more" -/
def bump (n : Nat) : Nat := if n < 2 then n + 1 else 2

inductive Instr
  | nop                                   -- start of a source statement (thread-local)
  | load (x d r : Nat)                    -- regs[r] := if sh[x] = 0 then d else sh[x]   (attribute load; 0 = not in the instance/class dict, `d` = inherited default, 0 = none)
  | loadG (x d r g gv : Nat)              -- like `load`, but the inherited default `d` exists only while sh[g] = gv (the class that
                                          -- defines it is still the object's class); otherwise an absent attribute reads 0
  | store (x v : Nat)                     -- sh[x] := v
  | storeR (x r : Nat)                    -- sh[x] := regs[r]
  | swap (x v r : Nat)                    -- regs[r] := sh[x] ; sh[x] := v      (atomic read-and-replace: `del o.a`, `d.pop(k)`)
  | initBegin (r : Nat)                   -- the slow initialiser starts with argument regs[r]
  | initEnd                               -- … and completes
  | onload (r : Nat)                      -- `kwds = onload(**kwds)` : counts the call, regs[r] := 5
  | importOnce (x : Nat)                  -- `__import__(module)`: the import system runs the module body once, under its own lock;
                                          -- if sh[x] = 0 the module is executed now (counted as an initialiser run, completed)
  | acquire | release                     -- the protocol's re-entrant lock
  | set (r v : Nat) | mov (r s : Nat)     -- thread-local
  | brEq (r v tgt : Nat) | brNe (r v tgt : Nat) | jmp (tgt : Nat)
  | use (k : Kind)                        -- the caller finally uses the object: ok cfg if completely built, else the exception `k`
  | ret (r : Nat)                         -- finish: ok regs[r]
  | fail (k : Kind)                       -- finish: the call raises
deriving DecidableEq, Repr

/-- does the instruction write state other threads can see (lock operations excluded) -/
def Instr.writes : Instr → Bool
  | .store .. | .storeR .. | .swap .. | .initBegin _ | .initEnd | .onload _ | .importOnce _ => true
  | _ => false

/-- does the instruction touch state other threads can see -/
def Instr.shared : Instr → Bool
  | .load .. | .loadG .. | .acquire | .release | .use _ => true
  | i => i.writes

structure Prog where
  code : List Instr
  /-- initial shared state -/
  sh0 : Nat
deriving Repr

inductive LockView | free | mine | other
deriving DecidableEq, Repr

structure Local where
  pc : Nat
  regs : Nat
  depth : Nat
  out : Option Outcome
deriving DecidableEq, Repr

structure View where
  sh : Nat
  lk : LockView
  loc : Local
deriving DecidableEq, Repr

def Local.start : Local := ⟨0, 0, 0, none⟩

def finish (v : View) (o : Outcome) : View := { v with loc := { v.loc with out := some o } }

/-- one instruction on a view -/
def exec (i : Instr) (v : View) : View :=
  let l := v.loc
  let nx : Local := { l with pc := l.pc + 1 }
  match i with
  | .nop => { v with loc := nx }
  | .load x d r => { v with loc := { nx with regs := setF l.regs r (if getF v.sh x = 0 then d else getF v.sh x) } }
  | .loadG x d r g gv =>
    { v with loc := { nx with regs := setF l.regs r (if getF v.sh x = 0 then (if getF v.sh g = gv then d else 0) else getF v.sh x) } }
  | .store x a => { v with sh := setF v.sh x a, loc := nx }
  | .storeR x r => { v with sh := setF v.sh x (getF l.regs r), loc := nx }
  | .swap x a r => { v with sh := setF v.sh x a, loc := { nx with regs := setF l.regs r (getF v.sh x) } }
  | .initBegin r =>
    { v with sh := setF (setF (setF v.sh 0 (bump (getF v.sh 0))) 1 (if getF v.sh 1 = 2 then 2 else 1)) 2 (getF l.regs r), loc := nx }
  | .initEnd => { v with sh := setF v.sh 1 2, loc := nx }
  | .onload r => { v with sh := setF v.sh 3 (bump (getF v.sh 3)), loc := { nx with regs := setF l.regs r 5 } }
  | .importOnce x =>
    if getF v.sh x = 0 then { v with sh := setF (setF (setF (setF v.sh x 2) 0 (bump (getF v.sh 0))) 1 2) 2 2, loc := nx }
    else { v with loc := nx }
  | .acquire =>
    match v.lk with
    | .free => { v with lk := .mine, loc := { nx with depth := 1 } }
    | .mine => { v with loc := { nx with depth := l.depth + 1 } }
    | .other => v
  | .release =>
    match v.lk with
    | .mine => if l.depth ≤ 1 then { v with lk := .free, loc := { nx with depth := 0 } } else { v with loc := { nx with depth := l.depth - 1 } }
    | _ => finish v (.exc .runtimeError)
  | .set r a => { v with loc := { nx with regs := setF l.regs r a } }
  | .mov r s => { v with loc := { nx with regs := setF l.regs r (getF l.regs s) } }
  | .brEq r a tgt => { v with loc := { l with pc := if getF l.regs r = a then tgt else l.pc + 1 } }
  | .brNe r a tgt => { v with loc := { l with pc := if getF l.regs r = a then l.pc + 1 else tgt } }
  | .jmp tgt => { v with loc := { l with pc := tgt } }
  | .use k => finish v (if getF v.sh 1 = 2 then .ok (getF v.sh 2) else .exc k)
  | .ret r => finish v (.ok (getF l.regs r))
  | .fail k => finish v (.exc k)

/-- the next micro-step of the thread whose view is `v` (finished threads stutter; running off the program is an error) -/
def lstep (p : Prog) (v : View) : View :=
  match v.loc.out with
  | some _ => v
  | none =>
    match p.code[v.loc.pc]? with
    | some i => exec i v
    | none => finish v (.exc .runtimeError)

structure World where
  sh : Nat
  lock : Option Tid
  loc : Tid → Local

def lockView (lock : Option Tid) (t : Tid) : LockView :=
  match lock with
  | none => .free
  | some o => if o = t then .mine else .other

def view (w : World) (t : Tid) : View := ⟨w.sh, lockView w.lock t, w.loc t⟩

/-- thread `t` performs one micro-step -/
def step (p : Prog) (w : World) (t : Tid) : World :=
  let v' := lstep p (view w t)
  { sh := v'.sh,
    lock := match v'.lk with
      | .mine => some t
      | .free => none
      | .other => w.lock,
    loc := fun u => if u = t then v'.loc else w.loc u }

def init (p : Prog) : World := ⟨p.sh0, none, fun _ => Local.start⟩

def run (p : Prog) (w : World) : List Tid → World
  | [] => w
  | t :: ts => run p (step p w t) ts

/-! ### thread-modular reachability: a candidate invariant, computed -/

/-- how a lock change by another thread looks from here -/
def envLk (lk' : LockView) (mineBefore : LockView) : LockView :=
  match lk' with
  | .mine => .other
  | .free => .free
  | .other => mineBefore

/-- can two different threads have these lock views at the same time -/
def compat (a b : LockView) : Bool :=
  match a, b with
  | .free, .free | .mine, .other | .other, .mine | .other, .other => true
  | _, _ => false

/-- the view of a bystander `vu` after the thread with view `vt` moved to `vt'` -/
def envApply (vt vt' vu : View) : View := { vu with sh := vt'.sh, lk := envLk vt'.lk vu.lk }

def changes (vt vt' : View) : Bool := !(vt'.sh == vt.sh && vt'.lk == vt.lk)

def applicable (vt vu : View) : Bool := vu.sh == vt.sh && compat vt.lk vu.lk

/-- an environment transition: (shared, lock view of the mover) before and after -/
abbrev Env := Nat × LockView × Nat × LockView

def envOf (vt vt' : View) : Env := (vt.sh, vt.lk, vt'.sh, vt'.lk)

def envOn (e : Env) (vu : View) : Option View :=
  if vu.sh == e.1 && compat e.2.1 vu.lk then some { vu with sh := e.2.2.1, lk := envLk e.2.2.2 vu.lk } else none

def addNew (R acc : List View) : List View → List View
  | [] => acc
  | c :: cs => if R.elem c || acc.elem c then addNew R acc cs else addNew R (c :: acc) cs

/-- work-list exploration of the views a thread can have (fuel = number of views processed); gives up as soon as it meets a
    view for which `stop` holds (that view is in the result) -/
def reachLoop (p : Prog) (stop : View → Bool) : Nat → List View → List View → List Env → List View
  | 0, _, R, _ => R
  | _ + 1, [], R, _ => R
  | n + 1, v :: todo, R, E =>
    if stop v then R else
    let v' := lstep p v
    let e := envOf v v'
    let isNew := changes v v' && !E.elem e
    let E' := if isNew then e :: E else E
    let c1 := v' :: E'.filterMap (envOn · v)
    let c2 := if isNew then R.filterMap (envOn e) else []
    let fresh := addNew R [] (c1 ++ c2)
    reachLoop p stop n (todo ++ fresh) (fresh ++ R) E'

def view0 (p : Prog) : View := ⟨p.sh0, .free, Local.start⟩

def reach (p : Prog) (fuel : Nat) : List View := reachLoop p (fun _ => false) fuel [view0 p] [view0 p] []

/-- a finished thread with another outcome than `want` -/
def wrong (want : Outcome) (v : View) : Bool :=
  match v.loc.out with
  | none => false
  | some o => o != want

/-- the candidate invariant for "everybody finishes with `want`": exploration stops at the first counterexample view -/
def reachFor (p : Prog) (want : Outcome) (fuel : Nat) : List View := reachLoop p (wrong want) fuel [view0 p] [view0 p] []

/-- `R` is closed under the thread's own steps and under every other thread's steps -/
def closed (p : Prog) (R : List View) : Bool :=
  R.elem (view0 p) &&
  R.all fun vt =>
    let vt' := lstep p vt
    R.elem vt' &&
    (!changes vt vt' || R.all fun vu => !applicable vt vu || R.elem (envApply vt vt' vu))

end Model.Threads
