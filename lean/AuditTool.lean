import Lean
/-
Axiom audit: for every theorem declared in the given modules print
  THEOREM <name> AXIOMS <comma separated>
Run:  lake env lean --run AuditTool.lean PasslibVerif.Props.C12 [more modules]
-/
open Lean

abbrev EnvM := ReaderT Environment Id
instance : MonadEnv EnvM where
  getEnv := read
  modifyEnv _ := pure ()

unsafe def main (args : List String) : IO UInt32 := do
  initSearchPath (← findSysroot)
  unsafe enableInitializersExecution
  let mods := args.map fun s => s.splitOn "." |>.foldl (fun n p => Name.str n p) Name.anonymous
  let env ← importModules (mods.toArray.map fun m => { module := m }) {} (trustLevel := 1024) (loadExts := true)
  for m in mods do
    match env.getModuleIdx? m with
    | none => IO.println s!"MISSING {m}"
    | some idx =>
      let names := env.header.moduleData[idx.toNat]!.constNames
      for n in names do
        if n.isInternal then continue
        match env.find? n with
        | some (.thmInfo _) =>
          let arr : Array Name := (collectAxioms (m := EnvM) n).run env
          let axs := arr.toList.map toString
          IO.println s!"THEOREM {n} AXIOMS {",".intercalate axs}"
        | _ => pure ()
  return 0
