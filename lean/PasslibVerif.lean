-- Root of the `PasslibVerif` library: everything that must build.
import PasslibVerif.Py.Basic
import PasslibVerif.Gen.B64
import PasslibVerif.Model.B64
