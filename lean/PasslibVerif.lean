-- Root of the `PasslibVerif` library: everything that must build.
import PasslibVerif.Props.C06
import PasslibVerif.Props.C12
import PasslibVerif.Props.C13
import PasslibVerif.Props.C14
