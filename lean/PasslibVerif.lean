-- Root of the `PasslibVerif` library: everything that must build.
import PasslibVerif.Props.C04
import PasslibVerif.Props.C06
import PasslibVerif.Props.C07Static
import PasslibVerif.Props.C09
import PasslibVerif.Props.C10
import PasslibVerif.Props.C11
import PasslibVerif.Props.C11Blowfish
import PasslibVerif.Props.C11Scrypt
import PasslibVerif.Props.C12
import PasslibVerif.Props.C13
import PasslibVerif.Props.C14
import PasslibVerif.Props.C16
import PasslibVerif.Props.C18
import PasslibVerif.Spec.Pbkdf
import PasslibVerif.Spec.SHA512
import PasslibVerif.Spec.SHA1
import PasslibVerif.Spec.MD4
